"""Per-property configuration of bin/check."""

BADGER = "badger v4 (ordered prefix iteration, snapshot reads, atomic durable commit, Sequence leases) — modelled, not verified"

PROPS = {
    "C10": dict(
        modules=["Hub.Props.C10"],
        gens=["c10"],
        rule="exhaustive box (n<=24,batch<=8,p in [-1,12]; thorough n<=40,batch<=12,p<=14 x 4 transform modes) through the real "
             "IncrementalPipeline.sync with a counting transform and a collecting sink, plus sampled larger values; "
             "non-trivial = parallelism>1 and n>1; distinct = distinct (n,batch,p,mode)",
        trusted=["goroutine scheduling of the transform workers (sampled, not proved)", "goja runtimes are replaced by a scripted Go transform"],
        assumptions=["the transform is a per-entity function (flatMap); worker results are joined by worker index"],
        exhaustive=True,
        level_text="Proof: the split arithmetic is proved, for every batch length and every configured parallelism (any integer), to hand every "
                   "entity to exactly one worker in source order (chunks_partition, parallel_eq_sequential, identity_is_copy); the arithmetic "
                   "the theorems talk about is re-extracted from IncrementalPipeline.sync on every run (facts_workers/psize/bound are proved "
                   "equal to the model), and the real pipeline is run over an exhaustive box and compared with model and spec.",
        level_note="Trusted: Lean kernel; factgen's expression translator; goroutine scheduling/WaitGroup and goja clones are outside the model "
                   "(sampled by the correspondence only). 'runs again produce no new changes' is covered by C08/C01 (sink dedup).",
    ),
}

PROPS["C17"] = dict(
    modules=["Hub.Props.C17"],
    gens=["c17", "c17empty", "c17overlap", "c17rerun"],
    rule="(c17.rerun) the real job.Run with a reRun handler and real timers (delay 400 ms), triggered 1-3 times 150 ms apart with a sink that rejects everything or nothing: number of runs "
         "after settling = triggers + maxRetries for a failing job (the retry budget is shared and spent when a re-run is scheduled), = triggers for a succeeding one; "
         "(c17.overlap) the real job.Run over one batch with a rejecting sink while a second trigger of the same job fires during the k-th sink call and is turned away by the raffle: "
         "the outcome must be that of the undisturbed bisection; real wrappedSink.processEntities (with the real LogFailingEntityHandler behind a recorder) against a scripted sink: all subsets "
         "of rejected positions for one batch of size <=7 (thorough <=10) x all maxItems in [0,n+1], plus sampled multi-batch runs with "
         "transient call failures and batches up to 200; non-trivial = more than one entity and at least one failure; distinct = distinct input",
    trusted=["the sink is an arbitrary stateful oracle in the theorems; the harness realises permanent and per-call transient oracles",
             "time.AfterFunc / job.Run re-entry of the reRun handler is modelled by `chain`, not executed in the quick tier"],
    assumptions=["at most one log handler per trigger (verifyErrorHandlers rejects duplicates)"],
    exhaustive=True,
    level_text="Proof: for every batch, every sink behaviour (stateful oracle) the bisection delivers or reports every entity exactly once "
               "(partition), delivers exactly the non-rejected ones in order for permanent rejects (permanent_rejects), stops at the m-th "
               "rejection with everything so far accounted for as a prefix (max_items), and any run with a rejection ends with lastError set "
               "(outcome_carries_error); reRun chains are bounded by maxRetries and never follow success or a kill (rerun_bounded, chain_stops). "
               "The model's shape is tied to error_handler.go by regenerated facts and the real wrappedSink is run against the model exhaustively for small batches.",
    level_note="Trusted: Lean kernel, factgen (syntactic shapes), the scripted sink. Timers of the reRun handler are not exercised by the quick tier.",
)

PROPS["C11"] = dict(
    modules=["Hub.Props.C11"],
    gens=["c11", "c17empty", "c11verify", "c11race", "c11end", "c11kill"],
    rule="(c11.kill, child process, real time) a run is killed while it is inside a source call that ignores the cancellation for 6.5 s; requests for the same job id 1, 5.6 and 6.1 s after the start must be skipped (never two runs of one id inside the pipeline), and when the run is back the ticket pools hold what they held before; (c11.end, child processes) a job with or without a JavaScript transform, with or without a log handler for failing entities, incremental or full sync, sink accepting or rejecting everything, run through the real job.Run: afterwards a result is stored for the job, failed exactly when the sink rejected (a fatal error of the process is an observation); (c11.race) eight goroutines ask the real raffle for a ticket for the same job id at the same moment, 1500 rounds (thorough 20000) in a child process: never more than one ticket "
         "per round, pools intact afterwards; (c11.verify) generated job definitions (1-3 triggers of type cron/onchange/unknown, job types, schedules, monitored datasets, error handler lists with known, unknown and duplicate "
         "types) through the scheduler's own verify: accepted iff the model's verify, and every accepted definition has its per-entity handlers initialised on every trigger; "
         "random borrow/return sequences (5 job ids, pools 0..2 fullsync / 0..3 incremental) against the real raffle, state compared after "
         "every request; non-trivial = at least two grants and one refusal; distinct = distinct sequences",
    trusted=["goja, cron/jobrunner and goroutine scheduling are outside the model", "panic recovery of cron/manual runs is jobrunner's"],
    assumptions=["a ticket is returned exactly once, by the run that holds it (defer in job.Run, checked as a regenerated fact)"],
    level_text="Proof: the raffle invariant (tickets + running = pool per kind, at most one entry per job id) is proved for every sequence of "
               "requests (raffle_inv, pools_never_exceeded, no_overlap); the control-flow skeleton of job.Run returns the ticket on every path "
               "including panics and stores a result unless it panicked (run_outcome); wrappers forward to the wrapped component and "
               "Scheduler.verify validates every trigger (wrappers_forward, verify_total with facts regenerated from the source). "
               "The real raffle is compared with the model after every request of generated sequences.",
    level_note="Trusted: Lean kernel, factgen shapes, the harness. Behaviour of goja/cron and goroutine panics is residue; the job cross product "
               "is executed by the thorough tier in child processes.",
)

PROPS["C16"] = dict(
    modules=["Hub.Props.C16"],
    gens=["c16", "c16p", "c16seq"],
    rule="(c16.seq) sequences of 4-11 requests by ONE client through the complete router (every registered method of two protected paths, in random order, with repeats), the ACL set once and sometimes replaced or deleted in the middle: each request must be decided as if it were the first (no grant remembered across methods, paths or ACL changes); (a) the real doAclCheck over 7 methods x 7 paths x all ACL lists of size <=1 and a stride of size 2 (thorough: all of size 2 plus sampled size 3) "
         "drawn from 9 resources x {read,write} x {allow,deny}; (b) every (method,route) of the registered echo router (path parameters "
         "instantiated) x 11 token kinds (absent, malformed, expired, wrong key, wrong issuer, wrong audience, RS384, HS256 signed with the public key, "
         "alg none, admin, client) x 6 ACL shapes for the client token, served in-process through all middlewares; non-trivial = non-admin with a "
         "resource-matching entry (a) / non-skipped path and non-admin token (b); distinct = distinct input",
    trusted=["signature verification and claim validation of golang-jwt (tokens are really signed and parsed in the tie, abstract in the theorem)",
             "echo routing; OPA path (not configured) is outside the model"],
    assumptions=["a token without aud/iss claim passes the audience/issuer check (VerifyAudience(x,false)); stated in authn_decision, see DESIGN"],
    exhaustive=True,
    level_text="Proof: the ACL decision equals its specification for every method, path and ACL list of any length (acl_decision: some applicable "
               "allow and no applicable deny; deny_overrides; read_never_mutates), the authentication decision implies signature, expiry, RS256 and "
               "accepted issuer/audience (authn_decision), FilterDatasets lists each granted dataset once (dataset_list_filter). The decision code's "
               "shape is re-extracted from authorization.go / manager.go / authentication.go / middleware.go on every run (facts_shape) and the real "
               "router with all middlewares is enumerated exhaustively over routes x token defects and compared with the model.",
    level_note="Trusted: Lean kernel; factgen; golang-jwt cryptography; echo. Persistence of clients/ACLs across restart is decided under C14.",
)

PROPS["C13"] = dict(
    modules=["Hub.Props.C13", "Hub.Props.IdTxn"],
    gens=["c13", "c05", "store-c05"],
    rule="(c13.ns assertNested) while one caller of AssertPrefixMappingForExpansion is in front of a lock acquisition (a schedule point inserted by tools/instr), a second caller runs the whole function, mostly for the same expansion: every expansion keeps exactly one prefix; (store-c05) forced schedules of two writers: the outer batch or transaction runs until it reaches one of the points tools/instr inserts into copies of StoreEntities / ExecuteTransaction / commitIDTxn (after filling the transaction, before and after the commit of the shared id transaction, after the data commit, after the counter update), there a second write — same or another dataset, sharing never-seen identifiers with the first, sometimes rejected after it has drawn identifiers — is started on a second goroutine and the first waits until it has returned or is parked on a lock; both must return and every read afterwards must be that of the two writes one after the other; (a) random sequences of namespace assertions, URI compactions (hash/slash namespaces, empty local part, colons/slashes/hashes/non-ASCII in "
         "the local part), CURIE expansions and store restarts against the real NamespaceManager, every answer and the final prefix table compared; "
         "(b) identifiers introduced as entity ids in batches with restarts in between, rank order of their internal ids compared (ids never change, "
         "never collide, later ones are larger); non-trivial = at least two namespaces / three ids and at least one restart",
    trusted=["badger Sequence lease (ids resume at or beyond the persisted lease)", "goroutine interleavings of concurrent asserters are not in the model (sampled under C05)"],
    assumptions=["namespace state is persisted inside the locked assertion (regenerated fact)"],
    level_text="Proof: the prefix table is a bijection with prefixes exactly ns0..ns(n-1) in every reachable state (assert_wf, ns_bijection, wf_reachable), "
               "mappings are permanent (ns_permanent), compacting any http(s) URI and expanding it returns the URI (curie_roundtrip, over all strings), "
               "uri<->id stays one-to-one with strictly growing ids across assertions and restarts/crashes (id_assert_wf, id_permanent). The assertion's "
               "body, its lock bracket and the split functions are re-extracted from store.go on every run; the real manager is compared with the model "
               "on generated sequences with restarts. Identifiers under concurrency (Hub.Props.IdTxn): for every interleaving of any number of writers, rejected batches and process deaths at the granularity of the two idmux critical sections, an acknowledged batch's identifiers are durable (acked_ids_durable), the identifier table is a bijection and live writers agree on every URI (one_id_per_uri), numbers are never reused (ids_below_next); the shape of assertIDForURI/commitIDTxn, the list of functions touching the rolling transaction and its single owner per database are regenerated facts (defect D32, fixed, was a second owner).",
    level_note="Trusted: Lean kernel, factgen, badger. Concurrent asserters vs context readers: the accessor-copy fact is checked; schedules are sampled only.",
)

PROPS["C09"] = dict(
    modules=["Hub.Props.C09"],
    gens=["c09"],
    rule="random event scripts (4-10 events over sync ids x,y and none; entity pool 4) of HTTP start/batch/end requests through the real echo "
         "handler, job-sink start/batch/end calls, plain writes and REAL lease expiries (lease 400 ms, expiry = 900 ms sleep) on a fresh dataset of "
         "a real hub; result class, live ids, tombstones per entity and the started flag compared after every event with the model and with a spec "
         "that gives job syncs an identity; non-trivial = at least one completion that deleted something",
    trusted=["real timers: an expiry event is a sleep of 2.25x the lease; a stall of the machine longer than the lease inside a script would be a false alarm (cases are re-run before they are reported)",
             "the lease goroutine races with request handlers without synchronisation (Go memory model) — sampled only"],
    assumptions=["'different sync id' = different from the id of the sync that is active; with no active sync a batch without start header is a plain write"],
    level_text="Proof over the full-sync state machine: in every reachable state 'seen' is exactly what was written since the start of the started sync and "
               "all of it is live (Inv, run_inv), so a completion keeps exactly those and tombstones every other live entity once (completion_exact, "
               "tombstones_once); a non-start request with a foreign id changes nothing (foreign_rejected); only an end marker of the started sync with its "
               "lease armed, or a job end of a started sync, can delete (dead_sync_deletes_nothing_http, only_completion_deletes, expired_job_sync_deletes_nothing). "
               "PARTIAL for job-driven syncs: they carry no identity, so a job sync superseded by another start still completes (job_sync_superseded_deletes, "
               "known finding D10b).",
    level_note="Trusted: Lean kernel, factgen shapes, real timers in the tie. Known finding D10b is recorded in known_findings.json.",
)

STORE_TRUST = ["badger v4: ordered prefix iteration, snapshot reads, atomic commit (modelled as sorted key lists per key family)",
             "encoding/json; entity content is opaque in the model (canonical JSON string of props and refs), content equality = what the repaired IsEntityEqual decides on the generator's value domain",
             "internal ids, commit times and dataset ids are inputs of the model (the real run's choices)"]
STORE_RULE = ("generated histories (4-15 write ops over 2-3 datasets, id pool 5, 3 predicates; batches of 1-5 with in-batch repeats, identical re-posts, "
              "delete/un-delete flips, equal-length un-delete pairs, single/array refs, multi-dataset transactions, store reopen) against a fresh real hub; ")

PROPS["C01"] = dict(
    modules=["Hub.Props.C01"],
    gens=["store-c01", "c05stale", "store-c05"],
    rule=STORE_RULE + "(store-c05) forced schedules of two writers: the outer batch or transaction runs until it reaches one of the points tools/instr inserts into copies of StoreEntities / ExecuteTransaction / commitIDTxn (after filling the transaction, before and after the commit of the shared id transaction, after the data commit, after the counter update), there a second write — same or another dataset, sharing never-seen identifiers with the first, sometimes rejected after it has drawn identifiers — is started on a second goroutine and the first waits until it has returned or is parked on a lock; both must return and every read afterwards must be that of the two writes one after the other; after every op: paged listings (page sizes 0,1,2,3 following the tokens), scoped / two-dataset / unscoped merged lookups, now and pinned "
         "to earlier commit instants (±1 ns); non-trivial = at least 3 stored versions and 2 lookups; distinct = distinct histories",
    trusted=STORE_TRUST,
    assumptions=["commit times of a dataset strictly increase (write lock + clock)", "merge of partials for unscoped lookups is modelled in the driver (JSON level), not in a theorem"],
    level_text="Proof: the Go write loop (in-batch map, read snapshot, skip rule, latest pointers, change log, counters) refines the version-history "
               "specification for every batch (refinement, by induction over the batch with an invariant on the pending transaction); an element is dropped iff "
               "identical to the version it would replace (no_silent_drop, last_is_written); the stored latest is the last accepted version (stored_is_last); "
               "the listing contains exactly the last version of every stored id, each once (listing_eq_latest, listing_once), in strictly increasing key order, and reading it with any list of page "
               "sizes by following the continuation tokens returns exactly that listing, nothing twice and nothing missing (listing_incr, listing_paged). The model is run against the real "
               "store on generated histories (listing paging, scoped/unscoped/as-of lookups) and its key layouts / skip rule are regenerated facts. Lookups: the live partials a lookup merges are exactly the visible, non-deleted versions that are the newest of their dataset at the instant (lookup_partials_spec, for every state with unique version keys, which the write-path invariant provides); every reachable state satisfies the invariant (refinement_history: any history of batches with increasing commit times; refinement_history_txn: multi-dataset transactions included — a transaction, whose write loops share one read snapshot, is exactly its per-dataset batches at one commit time, txn_refinement; its premises are regenerated facts, facts_txn_shape); corollaries: one partial per dataset (lookup_one_partial_per_dataset), a superseded version contributes nothing (lookup_superseded_invisible), nothing from the future, a deleted dataset or outside the scope is returned (lookup_partial_sound), a dataset whose newest visible version is live is never lost (lookup_newest_live_returned).",
    level_note="Trusted: Lean kernel, factgen, badger, encoding/json. The merge of partials for unscoped lookups is covered by the correspondence, not by a theorem.",
)

PROPS["C02"] = dict(
    modules=["Hub.Props.C02"],
    gens=["store-c02", "c02http"],
    rule=STORE_RULE + "after every op: change feeds read with limit lists from {0},{1×8},{2,0},{3,1,0},{5,5}, since in {0,1,3,2^40}, with and without latest-only, "
         "following the returned tokens; plus the HTTP upload path (c02.http): requests of 1-45 entities with repeated ids POSTed through the real handler (which stores in chunks of ten "
         "while it parses), the whole feed read back through GET changes following the continuation tokens, compared with the sequential duplicate-detection fold; non-trivial = at least 3 stored versions; distinct = distinct histories",
    trusted=STORE_TRUST,
    assumptions=["positions handed out by the badger Sequence strictly increase per dataset (gaps allowed)"],
    level_text="Proof: under the refinement invariant the change log read in key order is the specification's feed (changesOf_eq_feedOf, feed_eq_versions), each accepted "
               "version adds exactly one entry and a redundant write none (feed_step + refinement); for every since, every list of limits and with or without latest-only the "
               "pages obtained by following the tokens plus a final unlimited read are exactly the entries from since — nothing skipped or repeated, in every state reachable by any history of batches and multi-dataset transactions (feed_reachable over txns_refine) (resume_exact, over any "
               "strictly increasing positions); a token at the end returns nothing and itself (token_at_end); latest-only = the feed filtered to current versions (latest_only).",
    level_note="Trusted: Lean kernel, factgen, badger. Interleaved readers: each page is one snapshot and the feed is append-only in position order (invariant feedInc/feedBound).",
)

PROPS["C03"] = dict(
    modules=["Hub.Props.C03"],
    gens=["store-c03"],
    rule=STORE_RULE + "after every op: relationship queries for random start entities x {each predicate, *} x both directions x scopes {unscoped, one dataset, two datasets} x limits 0-3, "
         "now and pinned to earlier instants; paged queries followed in one go (<=12 pages) and as saved continuations; spec = graph implied by the latest in-scope versions; "
         "non-trivial = at least 3 versions and 2 queries",
    trusted=STORE_TRUST,
    assumptions=["per-page order of results is canonicalised (Go map iteration)"],
    level_text="Proof (PARTIAL): for one write the reference index keeps 'newest key <= at is live' equal to 'last version <= at is live and carries the reference' for every reference "
               "and instant, including the in-batch tombstone removal (index_step, proved on the per-(dataset, referencing entity) index model whose algorithm Hub.Store.writeRefs repeats; index_history lifts it by induction to every history of versions with non-decreasing commit times, in-batch predecessors included); "
               "the unpaged outgoing scan — reverse iteration with its seen/added sets — returns a pair exactly once, iff for some in-scope non-deleted dataset the newest key of "
               "(source, predicate, target, dataset) recorded <= at is live, for every database, predicate filter, instant and scope (outgoing_unpaged); together: under the index invariant the "
               "outgoing query equals the graph implied by the latest versions (outgoing_eq_graph); a page with any limit is a window of the unpaged result and following the continuation "
               "keys concatenates to exactly the unpaged list, nothing missing and nothing twice, for every limit >= 1 (outgoing_page_window, outgoing_paged_eq_unpaged — the fast-forward marks "
               "pairs as added exactly as the unpaged scan does). Incoming scans with continuations and the multi-start-point wrapper are executable models compared with the real store and "
               "with the graph specification on generated histories. Incoming is NOT the transpose of outgoing when a referencing entity has several (predicate, dataset) "
               "combinations towards the start entity: incoming_not_transpose, known finding D4.",
    level_note="Trusted: Lean kernel, factgen, badger. That the whole-store write path keeps the per-(dataset, entity) index invariant (the hypothesis of outgoing_eq_graph) is index_step "
               "per write plus the correspondence for the embedding into the store model. The theorems are about Hub.Store.relatedOut, which the correspondence compares with the real "
               "GetRelatedAtTime (pages, continuations) on every generated query.",
)

PROPS["C06"] = dict(
    modules=["Hub.Props.C06"],
    gens=["store-c06", "c05stale"],
    rule=STORE_RULE + "after every op: lookups and relationship queries (both directions, paged and unpaged) pinned to the commit instant of a random earlier op, that instant -1 and +1; "
         "the model and the spec evaluate the pinned query on the history, so a later write that changes a pinned answer is a mismatch; non-trivial = at least 3 versions and 2 queries",
    trusted=STORE_TRUST + ["wall-clock monotonicity (commit times strictly increase)"],
    assumptions=["maintenance (dataset deletion, GC, compaction) is excluded here: C07, C12"],
    level_text="Proof: a batch or transaction committed at time t only adds version keys of time t and only adds/removes reference keys of time t (frame, frame_txn); as-of lookups and outgoing "
               "queries depend only on keys with time <= at (visible_local, relatedOut_local), hence for every later write the pinned lookup and the pinned outgoing query — results and "
               "continuation, any limit — are unchanged (lookup_immutable, lookup_immutable_txn, relatedOut_immutable, relatedOut_immutable_txn), and by induction for every later history of batches and transactions in any order (history_immutable); an instant equal to a commit time includes that commit "
               "(lookup_includes_commit_instant). Incoming queries are validated by the correspondence only (and fall under known finding D4).",
    level_note="Trusted: Lean kernel, factgen, badger, the clock. The outgoing scan model skips keys recorded after `at` up front (the code skips them one by one without touching its state).",
)

PROPS["C07"] = dict(
    modules=["Hub.Props.C07"],
    gens=["store-c07"],
    rule=STORE_RULE + "mixed with dataset create / delete / rename / re-create (names a-f, shared entity ids and cross-dataset refs), GC runs and store reopen at "
         "random positions; after every op: listings, feeds, scoped/unscoped/as-of lookups, both query directions and the catalogue (names + meta entities); "
         "non-trivial = at least 3 versions and 2 queries",
    trusted=STORE_TRUST + ["the copy-on-write swap of the in-memory deleted map is read without synchronisation by concurrent queries (sampled under C05 only)"],
    assumptions=["crash points inside create/rename/delete are decided under C04"],
    level_text="Proof: after DeleteDataset every as-of lookup and every outgoing query answers exactly as if all keys of the dataset were erased (delete_hides_partials, "
               "delete_hides_outgoing), lookups scoped to other datasets do not change (others_unaffected), GC removes exactly the keys of deleted datasets from the five key "
               "families and changes no lookup (gc_exact, gc_invisible_lookup, selectors/offsets from regenerated facts), dataset ids are fresh, never shared and never those of a "
               "deleted dataset so a re-created name starts empty (C19.fresh_ids). The model is compared with the real hub on histories with management ops, GC and reopen.",
    level_note="Trusted: Lean kernel, factgen, badger. Incoming queries and feeds/listings by name are covered by the correspondence (a deleted name resolves to no dataset).",
)

PROPS["C19"] = dict(
    modules=["Hub.Props.C19"],
    gens=["store-c19", "c19race"],
    rule=STORE_RULE + "mixed with dataset create / delete / rename / re-create and reopen; after every op the catalogue: listed names, and for every name ever used (plus an "
         "unknown one and core.Dataset) the meta entity's deleted flag, name, public namespaces and items counter, compared with the model's registry and distinct-id count; (c19.renamerace) a forced schedule in a child process: a rename is parked between moving the record and "
         "storing the new name's meta entity while a writer stores a new entity into the dataset, afterwards the counter must equal the number of distinct ids; "
         "non-trivial = at least 3 versions and 2 queries",
    trusted=STORE_TRUST,
    assumptions=["concurrent writers to different datasets funnel through core.Dataset under its write lock (lock facts under C05); DeleteDataset does not hold the dataset's lock"],
    level_text="Proof: the items counter of a dataset equals the length of a duplicate-free enumeration of exactly the ids with at least one version there, in every state reached "
               "through the write path (items_eq_distinct, items_step — part of the refinement invariant; items_reachable: after every history of batches and multi-dataset transactions from the empty store); for every history of create/delete/rename/re-create a name is listed iff "
               "its meta entity is live, deleted or renamed-away names have deleted meta entities, ids are fresh and unshared (catalogue, fresh_ids). PARTIAL: core.Dataset's own counter "
               "is never maintained (known finding D22).",
    level_note="Trusted: Lean kernel, factgen, badger. The meta entities themselves (name, namespaces) are compared by the correspondence.",
)

PROPS["C12"] = dict(
    modules=["Hub.Props.C12"],
    gens=["store-c12"],
    rule=STORE_RULE + "with legacy duplicate versions injected at random positions (a version written without the write-time equality check, as old hubs did) and deduplicating "
         "compaction runs with flush thresholds 1, 2, 3, 100000 in between; after every op all read APIs (listing, full and latest-only feeds, lookups now and pinned, both query "
         "directions) — the model runs its own compaction, so before/after equality and the exact feed are both checked; about a third of the compactions run in a child process that is "
         "killed right after its n-th flush transaction (crash point inserted by tools/instr into flushDeletes) or before the first: after the restart listing, latest-only feed and lookups must "
         "answer as before the compaction, the full feed must be readable and have lost nothing but entries, and a second compaction run finishes the job; another third run with a writer forced between the compactor's snapshot and its n-th flush (an in-process callback at the crash point at the entry of flushDeletes stores a batch, "
         "usually containing a new version of an entity whose newest version is a legacy duplicate): afterwards every read must show the writer's versions and nothing else must have changed; non-trivial = at least 3 versions and 2 queries",
    trusted=STORE_TRUST,
    assumptions=["a writer racing the compactor is scheduled at flush boundaries (one batch between snapshot and n-th flush); interleavings inside a badger transaction are badger's"],
    level_text="Proof (spec level): removing every version whose content equals the version kept before it preserves the content of the latest version (latest_preserved) and of the "
               "latest version of every prefix of the history, i.e. of every pinned lookup (pinned_preserved); what remains is an order-preserving sublist without adjacent duplicates "
               "(feed_sublist, no_adjacent_dups). The key-level model of the compactor (version, change-log, latest-pointer and reference keys) is compared with the real compactor "
               "on histories with injected duplicates for all flush thresholds, including compactors killed between flushes; its eval/flush shape is a regenerated fact. A writer racing the compactor: what is left of snapshot-history ++ writer's versions has lost nothing but versions, shows the same latest and pinned content and compacts to the same "
               "result (racing_writer_invisible), and a guarded flush never moves the latest pointer of an entity written since the snapshot (raced_pointer_written, key level; the guard is the regenerated fact "
               "rewriteLoop — its absence was defect D14, fixed); "
               "a compaction killed after any subset of its removals has lost nothing but versions, shows the same latest and pinned content and is completed by a second run to exactly the "
               "undisturbed result (partial_compaction_invisible, spec level), and the real compactor is killed after its n-th flush in the fault runs. Reference keys shared by the versions of one batch are only given up by the last version of the batch (model rule and regenerated look-ahead fact; defect D34, fixed, was the opposite); string and single-element-array reference values are kept apart as reflect.DeepEqual does.",
    level_note="Trusted: Lean kernel, factgen, badger. `recorded` of a removed duplicate is replaced by its identical predecessor's and is not compared.",
)

PROPS["C14"] = dict(
    modules=["Hub.Props.C14"],
    gens=["store-c14", "c14jobs", "c16p", "c13"],
    rule=STORE_RULE + "with a restart (close + reopen of the store, dataset manager, namespace manager) after random ops and the complete observable state (catalogue, every listing, "
         "every feed, lookups, relations, namespace table, deleted-dataset set) compared with the restart-free model; jobs: the scheduler is fed random job definitions, paused/resumed/"
         "restarted, and the stored definitions, schedules, sync tokens and effective retry delays are compared before and after re-adding; security: acls/clients written, manager reopened "
         "(c16p); namespaces re-read (c13); non-trivial = at least one restart after a state-changing op",
    trusted=STORE_TRUST + ["cron scheduling itself (jobrunner) is not modelled; the schedule table is"],
    assumptions=["a restart is a clean close (crash points are C04's subject)"],
    level_text="Proof: every in-memory mirror the hub keeps (dataset table, id table, namespace table, deleted-dataset set, job table, security tables) is modelled as a function `load` of the "
               "stored state, and each mutating operation is proved to keep mirror = load(stored) (mirror_inv for every op sequence) so that a restart — which replaces the mirror by "
               "load(stored) — is the identity on observable state (restart_identity); regenerated facts tie each mirror's mutation sites to a preceding/following store write. The real hub "
               "is restarted at random points of generated histories and compared with the restart-free model.",
    level_note="Trusted: Lean kernel, factgen, badger. The mirror theorem is structural (which mirrors exist and which ops touch them is a regenerated fact, not derived).",
)

PROPS["C20"] = dict(
    modules=["Hub.Props.C20"],
    gens=["store-c20"],
    rule=STORE_RULE + "with native backups taken at random points (the real BackupManager.DoNativeBackup into a fresh or existing backup directory, incremental since the stored cursor), more "
         "writes after the backup, and a restore of the backup files into an empty store whose complete observable state is compared with the model's snapshot at the backup instant; half of the histories also hold a backup run open "
         "(the backup file is a named pipe with a one-page buffer, the run blocks in the middle of its dump) while 1-3 batches commit, let it finish, take a quiet run and compare the restored hub with the source at the quiet run's start; "
         "non-trivial = a backup after at least one write, followed by at least one more write",
    trusted=STORE_TRUST + ["badger's Stream backup/Load (kv stream with versions) — modelled as an append-only list of (key,value,version) records"],
    assumptions=["rsync backups copy badger's files while open and are out of scope of the model"],
    level_text="Proof: the backup file is modelled as an append-only sequence of increments, each holding every key whose version exceeds the previous cursor; restoring all increments in order "
               "reproduces exactly the snapshot at the last backup (restore_eq_snapshot) for every history and every placement of backups, the cursor never moves backwards (cursor_monotone), and "
               "a failed increment leaves the cursor unchanged (failed_backup_keeps_cursor). Facts regenerated from backup.go tie the open mode (append), the error checks, the cursor update "
               "and the file name to the model. The real backup manager is run at random points and the restored store compared with the model's snapshot. Commits while a run streams are picked up by the next run (overlapped_then_quiet); a cursor taken from the database instead of the dump loses them (cursor_from_db_loses_overlapped_commit, a counterexample on the model), and the real manager is held open on a pipe while batches commit.",
    level_note="Trusted: Lean kernel, factgen, badger's backup stream.",
)

PROPS["C05"] = dict(
    modules=["Hub.Props.C05", "Hub.Props.IdTxn"],
    gens=["c05", "c05stale", "store-c05", "c05core"],
    rule="(c05.coretxn, child processes) one transaction that writes a dataset's meta entity in core.Dataset together with 0, 1 or 3 new entities of that dataset: it must return (the counter update at its end stores into core.Dataset again) and both parts must be there; (store-c05) forced schedules of two writers: the outer batch or transaction runs until it reaches one of the points tools/instr inserts into copies of StoreEntities / ExecuteTransaction / commitIDTxn (after filling the transaction, before and after the commit of the shared id transaction, after the data commit, after the counter update), there a second write — same or another dataset, sharing never-seen identifiers with the first, sometimes rejected after it has drawn identifiers — is started on a second goroutine and the first waits until it has returned or is parked on a lock; both must return and every read afterwards must be that of the two writes one after the other; (c05.stale) a forced schedule: a batch or a two-dataset transaction is started while another writer holds the dataset's write lock, that writer commits and releases, the parked "
         "writer commits after it — listing, scoped lookup (newest commit time) and the feed's recorded times must agree on the parked writer's version; child processes with 4-8 concurrent writers (single-dataset batches, some rejected; two-dataset transactions naming their datasets in both orders and minting new identifiers), "
         "readers and a dataset creator/deleter, GOMAXPROCS 1/4/16, a watchdog (a hang is a deadlock), then the final state is checked: listing = last feed entry per id = scoped lookup, every "
         "acknowledged write is in the feed in its client's order, recorded times never decrease along a feed; non-trivial = every run",
    trusted=["the Go scheduler and sync.Mutex/RWMutex; badger transactions; the interleavings actually sampled"],
    assumptions=["lock acquisition sites are those found by the fact extractor (a lock taken through a function value or reflection would be missed)"],
    level_text="Proof: a system in which every thread acquires its locks in ascending rank order and releases them eventually cannot deadlock (ordered_locking_no_deadlock: some thread can always "
               "step); the lock sequence of every hub operation kind — with transactions sorting the datasets they name — is ascending in the rank dataset-manager < dataset(name) < core < "
               "id-mutex < namespace (lockseq_ascending_*), and the unsorted transaction order is shown to admit the AB/BA deadlock (abba_deadlocks). Regenerated facts tie the lock sites "
               "(sorted loop in ExecuteTransaction, locks before commit time, deferred unlocks, leaf locks) to the source. PARTIAL: atomic visibility to concurrent readers is sampled by the "
               "stress runs, not proved (it is badger's snapshot isolation). Identifiers under concurrency (Hub.Props.IdTxn): for every interleaving of any number of writers, rejected batches and process deaths at the granularity of the two idmux critical sections, an acknowledged batch's identifiers are durable (acked_ids_durable), the identifier table is a bijection and live writers agree on every URI (one_id_per_uri), numbers are never reused (ids_below_next); the shape of assertIDForURI/commitIDTxn, the list of functions touching the rolling transaction and its single owner per database are regenerated facts (defect D32, fixed, was a second owner).",
    level_note="Trusted: Lean kernel, factgen, Go runtime, badger.",
)

PROPS["C15"] = dict(
    modules=["Hub.Props.C15"],
    gens=["c15", "c15http", "c15txn"],
    rule="(1) generated entity collections from value trees (all JSON value shapes, nested entities and arrays to depth 5, default prefix, absolute http/https URIs, array refs, null-valued and "
         "repeated properties, shuffled member order, unknown members with nested values, varying white space) serialised by the harness and parsed by the real ParseStream; the specification is "
         "the denotation of the tree; (2) every wrongly typed member, malformed element and malformed context of a hand-kept table, alone and between well-formed elements; trailing data after "
         "the closing bracket; deep nesting; (3) byte-level mutations (truncate, drop, insert, replace, duplicate a chunk, retype a value) of well-formed documents and random strings over the "
         "JSON alphabet; the model is run on the token stream an independent encoding/json tokenizer produces for the same bytes; syntactically invalid JSON must be an error; (4) POST through "
         "the real echo handler, then GET entities and GET changes and parse what the hub serialises with the hub's own parser: what is stored is what the payload denotes (batches of ten "
         "before a malformed element). (5) transaction payloads (an @context member followed by one member per dataset holding its entity array, 1-3 datasets, 0-3 entities each, now and then a malformed element) through the real ParseTransaction, "
         "compared dataset by dataset with the real ParseStream on the same elements (refused iff one collection is refused). A panic is an observation. non-trivial = at least one entity and nesting",
    trusted=["encoding/json's tokenizer (json.Decoder.Token/Decode): the model starts at the token stream", "the namespace manager (C13) for prefix assignment: ids are compared as expanded URIs",
             "numbers are compared by their shortest float64 text; `recorded` is checked for its type only"],
    assumptions=["the parser instance is used for one payload (its property-name cache is then semantically transparent)"],
    level_text="Proof: the streaming parser, modelled branch for branch over the token stream (including the branches the tokenizer makes unreachable), applied to the serialisation of ANY value tree "
               "(nested to any depth) returns exactly the tree's denotation under the payload's context and leaves the rest of the stream untouched (value_roundtrip, by mutual structural "
               "induction over the nested tree); a run of well-formed entities is emitted as exactly their denotations whatever follows (elems_wellformed_prefix, collection_roundtrip); a malformed "
               "element after n well-formed ones emits exactly those n, reports the error and looks at nothing after it (malformed_element_rejected); truncated streams are errors; every wrongly "
               "typed member (id, deleted, recorded, props, refs, reference values, token, namespaces, missing context) is rejected for every parser state (…_must_be_…). Regenerated facts: no "
               "unchecked type assertion and no slice/index expression on parsed data in streamparser.go, the member dispatch table, emit-after-error-check. The real parser is run on generated, "
               "mutated and random bytes against the model and the denotation. PARTIAL: 'never a panic' is about the Go runtime — covered by the facts and the runs, not by a theorem; the GET "
               "serialisers and ParseTransaction are covered by the correspondence only.",
    level_note="Trusted: Lean kernel, factgen, encoding/json. Fuel: the driver runs the model with fuel = number of tokens + 2 and reports a driver error if it is ever exhausted.",
)

PROPS["C08"] = dict(
    modules=["Hub.Props.C08"],
    gens=["c08"],
    rule="generated scripts (4-12 events) of source writes (1-3 member datasets with disjoint ids, batches of 1-5 versions with re-posts, delete/un-delete, several versions per id) "
         "interleaved with runs of the real IncrementalPipeline.sync / FullSyncPipeline.sync over the real DatasetSource / UnionDatasetSource (with and without LatestOnly, batch sizes "
         "1,2,3,5,100) into the real datasetSink behind a scripted wrapper: sink rejection at call k, context cancelled after k accepted batches, death (panic) between sink write and "
         "token store after k batches; after every run: outcome, stored token, the sink's feed length and latest view (c08.run, compared with the model) and the property itself on the real "
         "state (c08.prop: sink view = source view after an ok run; no id whose latest source version lies below the token differs in the sink; an idle re-run changes neither token nor sink "
         "feed); non-trivial = at least one failed/killed/died run and some id with several versions",
    trusted=["badger; the write-time duplicate detection of the sink dataset (C01/C02)", "a process death is simulated by a panic that unwinds the pipeline after the sink accepted the batch "
             "(the stored state is what a crash would leave; in-memory state of sources and sink survives, as after a failed run)", "HTTP sources/sinks and transforms are outside this check (C10 covers the transform split)"],
    assumptions=["member datasets of a union have disjoint entity ids (otherwise 'the source's latest view' is not defined)", "no source writes while a run is in progress (the property's premise); writes between runs are arbitrary"],
    level_text="Proof on the detailed model Hub.Pipe, which follows pipeline.go / dataset_source.go / sink.go statement by statement and is the model compared with the code: for a job over one "
               "dataset source reading all versions, any batch size >= 1, a run keeps token safety whatever happens to it — the sink rejects any call, the run is killed after any batch, the process dies "
               "between the sink write and the token store, incremental or full sync (pipe_run_safe: for every id changed below the stored token the sink's latest version is a source version at "
               "least as new; readPage is proved to be the slice [cursor, cursor+batch) of the feed, the sink's duplicate detection and CompleteFullSync are part of the model); this holds over every "
               "history of source writes and runs from the empty hub (pipe_token_safe), and any run that ends ok leaves the sink's latest version of every source id equal to the source's "
               "(pipe_converges: convergence and recovery). The same statements on the abstract feed/cursor/token model Hub.Sync (token_never_ahead, converges_at_end, next_run_restores, "
               "rerun_changes_nothing) cover arbitrary interleavings of writes with pages; without the token reset a failed full sync diverges (full_sync_abort_without_reset_diverges, defect D28, "
               "fixed). The order sink-call / error-check / token-store, the reset after startFullSync, the single endFullSync after the read loop and the union source's Update-before-callback and "
               "return-on-error are regenerated facts (facts_*). PARTIAL: union sources and latest-only reads are in the executable model and the correspondence but not in the Hub.Pipe theorems; a "
               "full sync over a multi-version history is not a no-op for the sink's feed (known finding D29). Latest-only dataset sources (Hub/Proofs/PipeLO.lean): a latest-only page is characterised exactly (readPage_lo: the versions, among the positions looked at, that are the newest of their id in the feed; token = position after the last key looked at); the weaker invariant (below the token an id is up to date in the sink or has a newer occurrence at or above the token) is kept by every page, every source write and every fault of an incremental run, and an empty page means convergence (pipe_lo_page, pipe_lo_token_safe, pipe_lo_converges, every history).",
    level_note="Trusted: Lean kernel, factgen, badger. Hub.Pipe is compared with the real pipelines, sources and sink on generated scripts with faults; union/latest-only jobs are covered by that "
               "correspondence and by the abstract Hub.Sync theorems only.",
)

PROPS["C04"] = dict(
    modules=["Hub.Props.C04", "Hub.Props.IdTxn"],
    gens=["store-c04", "store-c05"],
    rule=STORE_RULE + "(store-c05) forced schedules of two writers: the outer batch or transaction runs until it reaches one of the points tools/instr inserts into copies of StoreEntities / ExecuteTransaction / commitIDTxn (after filling the transaction, before and after the commit of the shared id transaction, after the data commit, after the counter update), there a second write — same or another dataset, sharing never-seen identifiers with the first, sometimes rejected after it has drawn identifiers — is started on a second goroutine and the first waits until it has returned or is parked on a lock; both must return and every read afterwards must be that of the two writes one after the other; with dataset create/delete/rename, in which about a third of the state-changing operations run in a CHILD PROCESS with one crash point armed: tools/instr inserts a point "
         "after every durable step (StoreEntitiesWithTransaction, commitIDTxn, txn.Commit, updateDataset, storeValue, moveValue, deleteValueAndStoreObject, storeEntity) of copies of "
         "StoreEntities, ExecuteTransaction, CreateDataset, UpdateDataset, DeleteDataset (mapped over the originals with -overlay), the child kills itself with SIGKILL at the first or second hit "
         "(second = the nested store of the meta entity / the second dataset of a transaction); the parent reopens the store, determines whether the operation landed, and the history continues "
         "with queries (listings, feeds with tokens as ranks, lookups now and pinned, both query directions), more writes and more crashes; the model answers from h or h++[op] — nothing in "
         "between is accepted — and predicts from the regenerated step order which of the two it must be; non-trivial = at least one child actually died",
    trusted=STORE_TRUST + ["badger's atomic durable commit and recovery after SIGKILL (the OS keeps the page cache: a process kill, not a power loss)",
                           "tools/instr (go/ast rewriter): inserts calls only, after whole statements and their error checks; the copies are compiled instead of the originals for every harness build"],
    assumptions=["a crash inside a badger commit is badger's business (atomic by contract)", "job-token crash points (sink write vs token store) are decided under C08"],
    level_text="Proof: for a call whose keys are committed by one data step, a crash at any point leaves the committed data as it was or with the whole batch appended (all_or_nothing), a call that "
               "returned is present (acknowledged_present), and when the id transaction is committed before the data transaction no committed key mentions an internal id without a committed "
               "uri<->id row at any crash point (ids_before_data; data_before_ids_breaks_cover shows the order matters); instantiated with the step order of StoreEntities and ExecuteTransaction "
               "as tools/instr finds it in the source on every run (facts_step_order, write_calls_atomic). Regenerated facts: one writable transaction per call created outside every loop, the "
               "write loop writes only to the transaction it was handed, unconditional commitIDTxn before txn.Commit, error checks after every step (facts_one_transaction). badger's Sequence "
               "as a lease automaton hands out strictly increasing numbers over any history of opens, Next calls, releases and crashes (seq_no_reuse): change positions and internal ids are "
               "never reused. The real hub is killed at every instrumented point of generated histories and compared after restart with the model. Identifiers under concurrency (Hub.Props.IdTxn): for every interleaving of any number of writers, rejected batches and process deaths at the granularity of the two idmux critical sections, an acknowledged batch's identifiers are durable (acked_ids_durable), the identifier table is a bijection and live writers agree on every URI (one_id_per_uri), numbers are never reused (ids_below_next); the shape of assertIDForURI/commitIDTxn, the list of functions touching the rolling transaction and its single owner per database are regenerated facts (defect D32, fixed, was a second owner).",
    level_note="Trusted: Lean kernel, tools/instr, factgen, badger's commit atomicity and durability. The step model is abstract (ids, batches); that the key-level content of a landed batch is "
               "right is C01-C03's refinement, re-checked here by the queries after every restart.",
)

PROPS["C18"] = dict(
    modules=["Hub.Props.C18"],
    gens=["store-c18"],
    rule=STORE_RULE + "over three datasets (a = main, b, c), interleaved with runs of one or two MultiSource jobs whose source is built by the scheduler's own parseSource from JSON: 1-2 declared "
         "dependencies with 1-3 joins of mixed direction over predicates the histories use (and sometimes one the hub has never seen), dependencies registered through the transform's "
         "track_queries (chains of hop/iHop, real goja), batch sizes 1,2,3,10, with and without latest-only; each run goes through the real IncrementalPipeline.sync (first run = full sync "
         "with watermarks) into a collecting sink behind a recorder that separates dependency emissions from the main dataset's pages; three runs at the end of every history (towards the "
         "token fixpoint); observed per run: the effective dependency list (declared + reversed hops + implicit, deduplicated), the set of entities emitted by dependency tracking, the main "
         "dataset's changes in order, the stored token; the model follows the index scans, the specification the graph implied by the latest versions; non-trivial = at least 3 versions and a "
         "run that emitted through a dependency",
    trusted=STORE_TRUST + ["goja (track_queries is executed by the real engine)", "the order of emissions inside one dependency window (goroutine + channel) is canonicalised to a set"],
    assumptions=["dependency and main datasets exist; no source writes during a run", "inverse joins inherit known finding D4 (several predicate/dataset combinations per referencing entity)"],
    level_text="Proof: the ids that come out of processDependency's join loop are exactly those reachable from a changed entity along the declared joins, hop by hop, the first hop (when not inverse) "
               "also through the graph as of the previous window (chainFrom_mem, window_complete); the chain depends on the relation only as a set, so whatever C03 establishes for one query "
               "(scan = graph) carries over to chains of any length and direction mix (chain_congr); everything emitted has a live version in the main dataset and a dependency's token moves "
               "exactly to the end of the window read from the old token (depsPass_single, depsPass_main_origin; windows tile the feed by C02.resume_exact); the builder keeps every declared "
               "dependency, adds one per intermediate join dataset with the remaining joins, without duplicates (buildDeps_spec). Regenerated facts: dependencies before the main page and not "
               "during a full sync, token advanced after the join loop, conditions of the back-dated query, lookup scoped to the main dataset, watermark of an empty change log. The real "
               "MultiSource (built by parseSource, run by the pipeline) is compared with model and graph specification on generated histories. PARTIAL for inverse joins (D4). Registered queries (track_queries): if the transform can get from a main entity x to an entity y by a chain of hops it registered, the dependency the builder derives from the chain leads from y back to x, for any relation that is symmetric under transposition (reverseHops_reaches). A dependency dataset's token is held while another dependency on that dataset is still to come (depsPass_token_held; defect D33 was the opposite) and datasets without a dependency keep their token (depsPass_tok_frame); interrupted runs are exercised with the sink rejecting the n-th batch and what the interrupted run owed is checked on the next run.",
    level_note="Trusted: Lean kernel, factgen, badger, goja. Run schedules 'until the tokens stop advancing' are sampled (three consecutive runs), the per-window statement is proved.",
)

NOT_YET = {}
