"""Per-property configuration of bin/check."""

BADGER = "badger v4 (ordered prefix iteration, snapshot reads, atomic durable commit, Sequence leases) — modelled, not verified"

PROPS = {
    "C10": dict(
        modules=["Hub.Props.C10"],
        gens=["c10"],
        rule="exhaustive box (n<=24,batch<=8,p in [-1,12]; thorough n<=40,batch<=12,p<=14 x 4 transform modes) through the real "
             "IncrementalPipeline.sync with a counting transform and a collecting sink, plus sampled larger values; "
             "non-trivial = parallelism>1 and n>1; distinct = distinct (n,batch,p,mode)",
        trusted=["goroutine scheduling of the transform workers (sampled, not proved)", "goja runtimes are replaced by a scripted Go transform"],
        assumptions=["the transform is a per-entity function (flatMap); worker results are joined by worker index"],
        exhaustive=True,
        level_text="Proof: the split arithmetic is proved, for every batch length and every configured parallelism (any integer), to hand every "
                   "entity to exactly one worker in source order (chunks_partition, parallel_eq_sequential, identity_is_copy); the arithmetic "
                   "the theorems talk about is re-extracted from IncrementalPipeline.sync on every run (facts_workers/psize/bound are proved "
                   "equal to the model), and the real pipeline is run over an exhaustive box and compared with model and spec.",
        level_note="Trusted: Lean kernel; factgen's expression translator; goroutine scheduling/WaitGroup and goja clones are outside the model "
                   "(sampled by the correspondence only). 'runs again produce no new changes' is covered by C08/C01 (sink dedup).",
    ),
}

NOT_YET = {}
