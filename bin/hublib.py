#!/usr/bin/env python3
"""Shared machinery of /verif/bin/check: builds (facts, Lean, harness), runs, comparison,
classification, evidence. Everything is rebuilt from /repo's working tree on every run."""
import fcntl
import hashlib
import json
import os
import re
import shutil
import subprocess
import sys
import tempfile
import time

VERIF = os.path.dirname(os.path.dirname(os.path.abspath(__file__)))
REPO = os.environ.get("VERIF_REPO", "/repo")
LEAN = os.path.join(VERIF, "lean")
BUILD = os.path.join(VERIF, ".build")
HARNESS = os.path.join(VERIF, "harness")
ALLOWED_AXIOMS = {"propext", "Classical.choice", "Quot.sound"}
FORBIDDEN = re.compile(r"sorry|\badmit\b|^axiom |native_decide|bv_decide|implemented_by|unsafe |maxHeartbeats 0")

GOENV = dict(os.environ, GOFLAGS="-mod=mod", GOPROXY="off", GOSUMDB="off", GOTOOLCHAIN="local",
             CGO_ENABLED=os.environ.get("CGO_ENABLED", "0"))


def log(*a):
    print(*a, file=sys.stderr, flush=True)


class Lock:
    """process-wide lock around builds (several checks may run in parallel)."""

    def __init__(self, name):
        os.makedirs(BUILD, exist_ok=True)
        self.path = os.path.join(BUILD, name + ".lock")

    def __enter__(self):
        self.f = open(self.path, "w")
        fcntl.flock(self.f, fcntl.LOCK_EX)
        return self

    def __exit__(self, *a):
        fcntl.flock(self.f, fcntl.LOCK_UN)
        self.f.close()


def run(cmd, cwd=None, env=None, timeout=None, stdin=None):
    p = subprocess.run(cmd, cwd=cwd, env=env, timeout=timeout, stdin=stdin,
                       stdout=subprocess.PIPE, stderr=subprocess.STDOUT, text=True)
    return p.returncode, p.stdout


def write_if_changed(path, content):
    try:
        if open(path).read() == content:
            return False
    except FileNotFoundError:
        pass
    os.makedirs(os.path.dirname(path), exist_ok=True)
    tmp = path + ".tmp%d" % os.getpid()
    with open(tmp, "w") as f:
        f.write(content)
    os.replace(tmp, path)
    return True


# ---------------------------------------------------------------------------------------------
# facts: go/ast extractor -> lean/Hub/Generated/*.lean (regenerated on every run)

def build_factgen():
    src = os.path.join(VERIF, "tools", "factgen")
    out = os.path.join(BUILD, "factgen")
    rc, o = run(["go", "build", "-o", out, "."], cwd=src, env=dict(GOENV, GOFLAGS="-mod=mod"))
    if rc != 0:
        raise RuntimeError("factgen build failed:\n" + o)
    return out


def regenerate_facts():
    """returns (ok, text). Writes Hub/Generated/*.lean from /repo's current source."""
    with Lock("facts"):
        fg = build_factgen()
        gen = os.path.join(LEAN, "Hub", "Generated")
        tmpd = tempfile.mkdtemp(prefix="facts-", dir=BUILD)
        try:
            rc, o = run([fg, REPO, tmpd])
            if rc != 0:
                return False, o
            os.makedirs(gen, exist_ok=True)
            produced = set()
            for fn in sorted(os.listdir(tmpd)):
                produced.add(fn)
                write_if_changed(os.path.join(gen, fn), open(os.path.join(tmpd, fn)).read())
            for fn in os.listdir(gen):
                if fn.endswith(".lean") and fn not in produced:
                    os.remove(os.path.join(gen, fn))  # never leave a stale generated file
            return True, o
        finally:
            shutil.rmtree(tmpd, ignore_errors=True)


# ---------------------------------------------------------------------------------------------
# Lean

def lake_build(targets):
    with Lock("lake"):
        rc, o = run(["lake", "build"] + targets, cwd=LEAN)
    return rc == 0, o


def theorem_names(module):
    """theorem names (fully qualified) declared in a Props module, by a syntactic scan."""
    path = os.path.join(LEAN, *module.split(".")) + ".lean"
    names = []
    ns = []
    depth_comment = 0
    for line in open(path):
        s = line.strip()
        # skip block comments (coarse but sufficient: Props files keep `/- -/` on own lines)
        if depth_comment:
            if "-/" in s:
                depth_comment = 0
            continue
        if s.startswith("/-") and "-/" not in s:
            depth_comment = 1
            continue
        m = re.match(r"namespace\s+(\S+)", s)
        if m:
            ns.append(m.group(1))
            continue
        m = re.match(r"end\s+(\S+)", s)
        if m and ns and ns[-1] == m.group(1):
            ns.pop()
            continue
        m = re.match(r"(?:@\[[^\]]*\]\s*)?(?:private\s+|protected\s+)?theorem\s+(\S+)", s)
        if m:
            names.append(".".join(ns + [m.group(1)]))
    return names


def forbidden_hits(modules_dir=None):
    """grep gate over all Lean sources (comments stripped line-wise)."""
    hits = []
    for root, _, files in os.walk(os.path.join(LEAN, "Hub")):
        for fn in files:
            if not fn.endswith(".lean"):
                continue
            p = os.path.join(root, fn)
            incomment = False
            for i, line in enumerate(open(p), 1):
                s = line
                if incomment:
                    if "-/" in s:
                        incomment = False
                        s = s.split("-/", 1)[1]
                    else:
                        continue
                if "/-" in s:
                    before, rest = s.split("/-", 1)
                    if "-/" in rest:
                        s = before + rest.split("-/", 1)[1]
                    else:
                        incomment = True
                        s = before
                s = s.split("--", 1)[0]
                if FORBIDDEN.search(s):
                    hits.append("%s:%d: %s" % (os.path.relpath(p, VERIF), i, line.strip()))
    for p in [os.path.join(LEAN, "Driver.lean")]:
        for i, line in enumerate(open(p), 1):
            if FORBIDDEN.search(line.split("--", 1)[0]):
                hits.append("%s:%d: %s" % (os.path.relpath(p, VERIF), i, line.strip()))
    return hits


def audit(prop, modules):
    """#print axioms for every theorem of the given Props modules.
    returns (theorems, bad, text): bad = theorems with axioms outside the allowed set or that failed."""
    thms = []
    for m in modules:
        thms += theorem_names(m)
    os.makedirs(os.path.join(LEAN, ".audit"), exist_ok=True)
    f = os.path.join(LEAN, ".audit", "Audit%s_%d.lean" % (prop, os.getpid()))
    with open(f, "w") as fh:
        for m in modules:
            fh.write("import %s\n" % m)
        for t in thms:
            fh.write("#print axioms %s\n" % t)
    try:
        rc, o = run(["lake", "env", "lean", f], cwd=LEAN)
    finally:
        os.remove(f)
    ax = {}
    cur = None
    for line in o.splitlines():
        m = re.match(r"'([^']+)' depends on axioms: \[(.*)", line)
        if m:
            cur = m.group(1)
            rest = m.group(2)
            ax[cur] = rest
            if rest.rstrip().endswith("]"):
                cur = None
            continue
        m = re.match(r"'([^']+)' does not depend on any axioms", line)
        if m:
            ax[m.group(1)] = "]"
            cur = None
            continue
        if cur is not None:
            ax[cur] += " " + line.strip()
            if line.rstrip().endswith("]"):
                cur = None
    bad = []
    used = set()
    for t in thms:
        if t not in ax:
            bad.append((t, "not checked"))
            continue
        names = [a.strip() for a in ax[t].rstrip("]").split(",") if a.strip()]
        used.update(names)
        extra = [a for a in names if a not in ALLOWED_AXIOMS]
        if extra:
            bad.append((t, "axioms: " + ",".join(extra)))
    return thms, bad, sorted(used), o


# ---------------------------------------------------------------------------------------------
# harness (compiled into the datahub module through -overlay, from /repo's working tree)

def overlay_json():
    repl = {}
    for fn in sorted(os.listdir(os.path.join(HARNESS, "main"))):
        if fn.endswith(".go"):
            repl[os.path.join(REPO, "internal", "verifharness", fn)] = os.path.join(HARNESS, "main", fn)
    for fn in sorted(os.listdir(os.path.join(HARNESS, "shims"))):
        if not fn.endswith(".go"):
            continue
        base = fn[:-3]
        pkg, _, suffix = base.partition("--")
        pkgpath = pkg.replace("__", "/")
        repl[os.path.join(REPO, pkgpath, "zz_verif_%s.go" % (suffix or "shim"))] = os.path.join(HARNESS, "shims", fn)
    path = os.path.join(BUILD, "overlay.json")
    write_if_changed(path, json.dumps({"Replace": repl}, indent=1))
    return path


def build_harness(race=False):
    os.makedirs(BUILD, exist_ok=True)
    out = os.path.join(BUILD, "hubharness-race" if race else "hubharness")
    with Lock("harness"):
        ov = overlay_json()
        cmd = ["go", "build", "-tags", "verif", "-overlay", ov, "-o", out]
        env = dict(GOENV)
        if race:
            cmd.append("-race")
            env["CGO_ENABLED"] = "1"
        cmd.append("./internal/verifharness")
        rc, o = run(cmd, cwd=REPO, env=env)
    return (out if rc == 0 else None), o


def hubdrv_path():
    return os.path.join(LEAN, ".lake", "build", "bin", "hubdrv")


# ---------------------------------------------------------------------------------------------
# known findings

def load_known():
    p = os.path.join(VERIF, "known_findings.json")
    try:
        return json.load(open(p))
    except FileNotFoundError:
        return []


# ---------------------------------------------------------------------------------------------

def canon(x):
    return json.dumps(x, sort_keys=True, separators=(",", ":"))


def read_jsonl(path):
    out = []
    with open(path) as f:
        for line in f:
            line = line.strip()
            if line:
                out.append(json.loads(line))
    return out
